------------------------------- MODULE Kernel -------------------------------
(***************************************************************************)
(* The bacpypes scheduling kernel: task.TaskManager (a heap of             *)
(* (time, counter, task)), the RecurringTask slot rule, and the            *)
(* deferred-function drain loop of core.run_once / core.run.               *)
(*                                                                         *)
(* One action per critical section of the code:                            *)
(*   InstallAt / InstallAfter  _Task.install_task -> TaskManager.install   *)
(*   InstallRec                RecurringTask.install_task                  *)
(*   Suspend / Resume          TaskManager.suspend_task / resume_task      *)
(*   Defer                     core.deferred                               *)
(*   Run(d)                    clock moves by d, then one core.run_once()  *)
(* Time is integral (one unit = one second in the replay harness).         *)
(***************************************************************************)
EXTENDS Naturals, Integers, Sequences, FiniteSets, TLC

CONSTANTS
    K,              \* task ids (positive integers)
    Rec,            \* subset of K: recurring tasks; the others are one-shot
    Interval,       \* [Rec -> 1..]   interval of a recurring task
    Offset,         \* [Rec -> 0..]   offset of a recurring task
    TaskRaisesSets, \* set of subsets of K: candidates for "these tasks raise in process_task"
    TaskDefers,     \* [K -> F \cup {0}]: function a task hands to core.deferred when it fires
    TaskDoes,       \* [K -> <<op, j, dt>>]: what a task does to ANOTHER task j when it fires: <<"none", 0, 0>>,
                    \* <<"suspend", j, 0>> (a completion handler cancelling a timeout) or <<"at", j, dt>> (re-arming j for now + dt)
    F,              \* deferred function ids (positive integers)
    FnRaisesSets,   \* set of subsets of F: candidates for "these functions raise when called"
    FnDefers,       \* [F -> F \cup {0}]: function deferred by a function when it is called (acyclic)
    Times, Deltas, Steps,   \* argument grids of InstallAt / InstallAfter / Run
    OffGrid,        \* argument grid of InstallRecOff (offsets a recurring task is re-installed with)
    TickSteps,      \* argument grid of Tick (the clock moves while the loop is not running)
    MaxLevel,       \* bound on behaviour length for exhaustive checking
    MgrAtStart,     \* BOOLEAN: a task manager exists from the beginning (FALSE: tasks are installed before it is created)
    DropBatchOnRaise \* named deviation (finding F8): a raising deferred function ends the pass and the
                     \* rest of its batch is lost.  FALSE = the intended design (and the repaired code).

VARIABLES
    now,        \* clock
    q,          \* heap contents as a sequence of <<time, k>>, ordered by (time, installation order)
    sched,      \* [K -> BOOLEAN]  task.isScheduled
    due,        \* [K -> Int]      task.taskTime (NONE = never set)
    instAt,     \* [K -> Int]      clock value at the last (re-)installation  (history, for RecurringSlots)
    defq,       \* core.deferredFns as a sequence of function ids
    out,        \* observation: <<k, due time>> of the tasks fired by the last step, in order
    called,     \* observation: functions called by the last step, in order
    submitted,  \* history: every function ever handed to core.deferred, in order
    calledLog,  \* history: every function ever called, in order
    act,        \* the step that produced this state (makes state-graph dumps self-describing)
    TaskRaises, \* which tasks raise (chosen once, in Init)
    FnRaises,   \* which deferred functions raise (chosen once, in Init)
    off,        \* [K -> Nat] the offset a recurring task currently carries (RecurringTask.taskIntervalOffset; starts as Offset)
    mgr,        \* the task manager exists (task._task_manager)
    early       \* tasks installed before it existed, in the order of the calls (task._unscheduled_tasks)

vars == <<now, q, sched, due, instAt, defq, out, called, submitted, calledLog, act, TaskRaises, FnRaises, off, mgr, early>>
NONE == -1

----------------------------------------------------------------------------
\* heap order: by time, FIFO among equal times (the counter in the heap entries)
RECURSIVE InsertPos(_, _, _)
InsertPos(s, t, i) == IF i > Len(s) THEN i ELSE IF s[i][1] > t THEN i ELSE InsertPos(s, t, i + 1)
Insert(s, t, k) == LET p == InsertPos(s, t, 1) IN SubSeq(s, 1, p - 1) \o << <<t, k>> >> \o SubSeq(s, p, Len(s))
Remove(s, k) == SelectSeq(s, LAMBDA e : e[2] # k)
InQ(s, k) == \E i \in 1..Len(s) : s[i][2] = k

\* RecurringTask.install_task: the least  offset + j*interval  strictly greater than n
NextSlot(n, i, o) == n + i - ((n - o) % i)

Init ==
    /\ now = 0 /\ q = <<>> /\ sched = [k \in K |-> FALSE] /\ due = [k \in K |-> NONE]
    /\ instAt = [k \in K |-> NONE]
    /\ defq = <<>> /\ out = <<>> /\ called = <<>> /\ submitted = <<>> /\ calledLog = <<>>
    /\ act = [op |-> "init", k |-> 0, a |-> 0]
    /\ TaskRaises \in TaskRaisesSets /\ FnRaises \in FnRaisesSets
    /\ mgr = MgrAtStart /\ early = <<>>
    /\ off = [k \in K |-> IF k \in Rec THEN Offset[k] ELSE 0]

Quiet == out' = <<>> /\ called' = <<>> /\ UNCHANGED <<calledLog, TaskRaises, FnRaises, mgr, early>>
QuietOff == Quiet /\ UNCHANGED off

InstallAt(k, t) ==
    /\ k \notin Rec
    /\ q' = Insert(Remove(q, k), t, k) /\ sched' = [sched EXCEPT ![k] = TRUE]
    /\ due' = [due EXCEPT ![k] = t] /\ instAt' = [instAt EXCEPT ![k] = now]
    /\ act' = [op |-> "at", k |-> k, a |-> t] /\ QuietOff /\ UNCHANGED <<now, defq, submitted>>

InstallAfter(k, d) ==
    /\ k \notin Rec
    /\ q' = Insert(Remove(q, k), now + d, k) /\ sched' = [sched EXCEPT ![k] = TRUE]
    /\ due' = [due EXCEPT ![k] = now + d] /\ instAt' = [instAt EXCEPT ![k] = now]
    /\ act' = [op |-> "after", k |-> k, a |-> d] /\ QuietOff /\ UNCHANGED <<now, defq, submitted>>

InstallRec(k) ==
    /\ k \in Rec
    /\ LET t == NextSlot(now, Interval[k], off[k]) IN
        /\ q' = Insert(Remove(q, k), t, k) /\ due' = [due EXCEPT ![k] = t]
    /\ sched' = [sched EXCEPT ![k] = TRUE] /\ instAt' = [instAt EXCEPT ![k] = now]
    /\ act' = [op |-> "rec", k |-> k, a |-> 0] /\ QuietOff /\ UNCHANGED <<now, defq, submitted>>

\* the same recurring task object installed again with an explicit offset (install_task(offset=o); 0 is an offset like any other)
InstallRecOff(k, o) ==
    /\ k \in Rec
    /\ off' = [off EXCEPT ![k] = o]
    /\ LET t == NextSlot(now, Interval[k], o) IN
        /\ q' = Insert(Remove(q, k), t, k) /\ due' = [due EXCEPT ![k] = t]
    /\ sched' = [sched EXCEPT ![k] = TRUE] /\ instAt' = [instAt EXCEPT ![k] = now]
    /\ act' = [op |-> "reoff", k |-> k, a |-> o] /\ Quiet /\ UNCHANGED <<now, defq, submitted>>

Suspend(k) ==
    /\ q' = Remove(q, k) /\ sched' = [sched EXCEPT ![k] = IF InQ(q, k) THEN FALSE ELSE @]
    /\ act' = [op |-> "suspend", k |-> k, a |-> 0] /\ QuietOff /\ UNCHANGED <<now, due, instAt, defq, submitted>>

Resume(k) ==
    /\ due[k] # NONE
    /\ q' = Insert(Remove(q, k), due[k], k) /\ sched' = [sched EXCEPT ![k] = TRUE]
    /\ act' = [op |-> "resume", k |-> k, a |-> 0] /\ QuietOff /\ UNCHANGED <<now, due, instAt, defq, submitted>>

Defer(f) ==
    /\ defq' = Append(defq, f) /\ submitted' = Append(submitted, f)
    /\ act' = [op |-> "defer", k |-> f, a |-> 0] /\ QuietOff /\ UNCHANGED <<now, q, sched, due, instAt>>

----------------------------------------------------------------------------
\* core.run_once as a function on a record of the mutable state
St == [q |-> q, sched |-> sched, due |-> due, instAt |-> instAt, defq |-> defq, out |-> <<>>, called |-> <<>>,
       submitted |-> submitted, stop |-> FALSE]

DeferIn(st, f) == IF f = 0 THEN st ELSE [st EXCEPT !.defq = Append(@, f), !.submitted = Append(@, f)]

\* for fn in fnlist: fn()
RECURSIVE DrainBatch(_, _, _)
DrainBatch(st, batch, i) ==
    IF i > Len(batch) THEN st
    ELSE LET f   == batch[i]
             st1 == DeferIn([st EXCEPT !.called = Append(@, f)], FnDefers[f])
         IN  IF f \in FnRaises /\ DropBatchOnRaise
             THEN [st1 EXCEPT !.stop = TRUE]          \* exception leaves run_once; batch[i+1..] is lost
             ELSE DrainBatch(st1, batch, i + 1)

\* while deferredFns: fnlist = deferredFns; deferredFns = []; ...
RECURSIVE Drain(_)
Drain(st) ==
    IF st.stop \/ st.defq = <<>> THEN st
    ELSE Drain(DrainBatch([st EXCEPT !.defq = <<>>], st.defq, 1))

\* what task k does to another task from inside its process_task (n: the time of the pass)
Effect(st, k, n) ==
    LET a == TaskDoes[k] IN
    CASE a[1] = "suspend" -> [st EXCEPT !.q = Remove(@, a[2]), !.sched[a[2]] = IF InQ(st.q, a[2]) THEN FALSE ELSE @]
      [] a[1] = "at"      -> [st EXCEPT !.q = Insert(Remove(@, a[2]), n + a[3], a[2]), !.sched[a[2]] = TRUE,
                                        !.due[a[2]] = n + a[3], !.instAt[a[2]] = n]
      [] OTHER            -> st

\* while delta == 0.0: get_next_task; process_task; drain
RECURSIVE Pass(_, _)
Pass(st, n) ==
    IF st.q # <<>> /\ st.q[1][1] <= n
    THEN LET k      == st.q[1][2]
             rest   == Tail(st.q)
             again  == rest # <<>> /\ rest[1][1] <= n         \* delta == 0.0
             popped == [st EXCEPT !.q = rest, !.sched[k] = FALSE, !.out = Append(@, <<k, st.q[1][1]>>)]
         IN  IF k \in TaskRaises
             THEN [popped EXCEPT !.stop = TRUE]               \* exception leaves run_once
             ELSE LET d0 == DeferIn(popped, TaskDefers[k])
                      d  == Effect(d0, k, n)
                      r  == IF k \in Rec
                            THEN LET t == NextSlot(n, Interval[k], off[k]) IN
                                 [d EXCEPT !.q = Insert(@, t, k), !.sched[k] = TRUE, !.due[k] = t, !.instAt[k] = n]
                            ELSE d
                      dr == Drain(r)
                  IN  IF dr.stop \/ ~again THEN dr ELSE Pass(dr, n)
    ELSE Drain(st)

Run(d) ==
    LET n == now + d
        r == Pass(St, n)
    IN  /\ now' = n /\ q' = r.q /\ sched' = r.sched /\ due' = r.due /\ instAt' = r.instAt /\ defq' = r.defq
        /\ out' = r.out /\ called' = r.called /\ submitted' = r.submitted
        /\ calledLog' = calledLog \o r.called
        /\ act' = [op |-> "run", k |-> 0, a |-> d]
        /\ UNCHANGED <<TaskRaises, FnRaises, off, mgr, early>>

\* the clock moves on without a pass of the loop (it is waiting in select, another thread is about to install a timer):
\* what is installed afterwards is relative to the clock as it is then
Tick(d) ==
    /\ now' = now + d
    /\ act' = [op |-> "tick", k |-> 0, a |-> d] /\ QuietOff /\ UNCHANGED <<q, sched, due, instAt, defq, submitted>>

\* ---- before a task manager exists (module-level tasks, tasks installed from constructors before core.run) ----------
\* install_task only remembers the task; TaskManager.__init__ installs what was remembered, in the order of the calls
QuietEarly == out' = <<>> /\ called' = <<>> /\ UNCHANGED <<now, q, sched, defq, submitted, calledLog, TaskRaises, FnRaises, off, mgr>>
EarlyAt(k, t) ==
    /\ ~mgr /\ k \notin Rec
    /\ early' = Append(early, k) /\ due' = [due EXCEPT ![k] = t] /\ instAt' = [instAt EXCEPT ![k] = now]
    /\ act' = [op |-> "at", k |-> k, a |-> t] /\ QuietEarly
EarlyRec(k) ==
    /\ ~mgr /\ k \in Rec
    /\ early' = Append(early, k) /\ instAt' = [instAt EXCEPT ![k] = now] /\ UNCHANGED due
    /\ act' = [op |-> "rec", k |-> k, a |-> 0] /\ QuietEarly
\* suspend_task before the manager exists: the task is forgotten again (one remembered installation is taken back)
RemoveFirst(lst, k) == LET I == {i \in 1..Len(lst) : lst[i] = k} IN
                       IF I = {} THEN lst
                       ELSE LET m == CHOOSE i \in I : \A j \in I : i <= j IN SubSeq(lst, 1, m - 1) \o SubSeq(lst, m + 1, Len(lst))
EarlySuspend(k) ==
    /\ ~mgr /\ \E i \in 1..Len(early) : early[i] = k
    /\ early' = RemoveFirst(early, k) /\ UNCHANGED <<due, instAt>>
    /\ act' = [op |-> "suspend", k |-> k, a |-> 0] /\ QuietEarly
RECURSIVE Boot(_, _, _)
Boot(r, lst, i) ==
    IF i > Len(lst) THEN r
    ELSE LET k == lst[i]
             t == IF k \in Rec THEN NextSlot(now, Interval[k], off[k]) ELSE r.due[k]
         IN  Boot([r EXCEPT !.q = Insert(Remove(@, k), t, k), !.sched[k] = TRUE, !.due[k] = t], lst, i + 1)
Start ==
    /\ ~mgr /\ mgr' = TRUE /\ early' = <<>>
    /\ LET r == Boot([q |-> q, sched |-> sched, due |-> due], early, 1) IN q' = r.q /\ sched' = r.sched /\ due' = r.due
    /\ act' = [op |-> "start", k |-> 0, a |-> 0]
    /\ out' = <<>> /\ called' = <<>> /\ UNCHANGED <<now, instAt, defq, submitted, calledLog, TaskRaises, FnRaises, off>>

LateNext ==
    \/ \E d \in TickSteps : Tick(d)
    \/ \E k \in K, t \in Times : InstallAt(k, t)
    \/ \E k \in K, d \in Deltas : InstallAfter(k, d)
    \/ \E k \in K : InstallRec(k) \/ Suspend(k) \/ Resume(k)
    \/ \E k \in Rec, o \in OffGrid : InstallRecOff(k, o)
    \/ \E f \in F : Defer(f)
    \/ \E d \in Steps : Run(d)
Next ==
    \/ ~mgr /\ (Start \/ \E k \in K : EarlyRec(k) \/ EarlySuspend(k) \/ \E t \in Times : EarlyAt(k, t))
    \/ mgr /\ LateNext

Spec == Init /\ [][Next]_vars
Bound == TLCGet("level") <= MaxLevel

----------------------------------------------------------------------------
\* Properties (C14)
Sorted             == \A i \in 1..(Len(q) - 1) : q[i][1] <= q[i + 1][1]
AtMostOneEntryPerTask == \A k \in K : Cardinality({i \in 1..Len(q) : q[i][2] = k}) <= 1
SchedIffQueued     == \A k \in K : sched[k] <=> InQ(q, k)
\* a task never fires before its time
NeverEarly         == \A i \in 1..Len(out) : out[i][2] <= now
\* fired in non-decreasing order of due time within a pass ...
FireOrderTime      == \A i \in 1..(Len(out) - 1) : out[i][2] <= out[i + 1][2]
\* ... and nothing that stayed queued was due earlier than something that fired
FireOrderVsQueued  == \A i \in 1..Len(out) : \A j \in 1..Len(q) :
                          (q[j][1] <= now /\ q[j][2] \notin Rec /\ out[i][1] \notin Rec) => out[i][2] <= q[j][1]
\* a pass fires a task at most once unless it is recurring (fires once per installation)
OncePerInstall     == \A i, j \in 1..Len(out) : (i # j /\ out[i][1] = out[j][1]) => out[i][1] \in Rec
\* recurring slot rule: due = offset (mod interval), strictly after the installation, at most one interval later
RecurringSlots     == \A k \in Rec : sched[k] /\ act.op \in {"rec", "reoff", "run"} /\ instAt[k] # NONE /\ due[k] # NONE
                          /\ (act.op \in {"rec", "reoff"} => act.k = k)
                          /\ (act.op = "run" => \E i \in 1..Len(out) : out[i][1] = k)
                          => /\ (due[k] - off[k]) % Interval[k] = 0
                             /\ due[k] > instAt[k] /\ due[k] - instAt[k] <= Interval[k]
\* every deferred function is either already called or still queued, in submission order: nothing is lost,
\* nothing is called twice, nothing is called out of order -- whatever raises
DeferredExactlyOnceInOrder == calledLog \o defq = submitted
\* a step fires only tasks that were scheduled, and FIFO among equal due times (action properties)
FiresOnlyScheduled == [][\A i \in 1..Len(out') : sched[out'[i][1]] \/ out'[i][1] \in Rec]_vars
FifoAmongEquals    == [][\A i, j \in 1..Len(out') :
                            (i < j /\ out'[i][2] = out'[j][2] /\ out'[i][1] \notin Rec /\ out'[j][1] \notin Rec)
                            => \E a, b \in 1..Len(q) : a < b /\ q[a][2] = out'[i][1] /\ q[b][2] = out'[j][1]]_vars
\* a pass stops early only because something raised: otherwise nothing due and nothing deferred is left behind
NothingDueLeftUnlessRaise ==
    act.op = "run" /\ (\A i \in 1..Len(out) : out[i][1] \notin TaskRaises)
                   /\ (\A i \in 1..Len(called) : called[i] \notin FnRaises)
        => (\A j \in 1..Len(q) : q[j][1] > now) /\ defq = <<>>
=============================================================================
