------------------------------ MODULE MC_BBMD ------------------------------
(* A static configuration of BBMD.tla for manual runs (the check itself generates its configurations from
   harness/drivers/c13.py: LAYOUTS / random layouts).  Two BBMDs listing each other (1 -> 3 unicast / two-hop,
   3 -> 1 directed / one-hop), an ordinary node next to each, one foreign device registered with BBMD 1.
       java -cp tla2tools.jar:CommunityModules-deps.jar tlc2.TLC -config MC_BBMD.cfg MC_BBMD.tla            *)
EXTENDS BBMD
c_Role == <<"bbmd", "simple", "bbmd", "simple", "foreign">>
c_Subnet == <<1, 1, 2, 2, 3>>
c_BBMDof == <<0, 0, 0, 0, 1>>
c_TTL == <<0, 0, 0, 0, 2>>
c_BDT == <<{[peer |-> 1, direct |-> FALSE], [peer |-> 3, direct |-> FALSE]}, {},
           {[peer |-> 1, direct |-> TRUE], [peer |-> 3, direct |-> FALSE]}, {}, {}>>
c_Managers == {2}
=============================================================================
