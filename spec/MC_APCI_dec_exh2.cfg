SPECIFICATION SpecExh2
INVARIANT DecTotal
INVARIANT ErrIffRefused
INVARIANT ReEncode
INVARIANT PayloadAppends
INVARIANT TruncationRefused
CHECK_DEADLOCK FALSE
