\* one group over 2 IOCBs and the controller: callbacks on a member and on the group, timeouts on a member and on the group
CONSTANTS
  B = {1, 2}
  C = {}
  G = {3}
  PrioMaps <- c_Prio0
  KindMaps <- c_Norm3
  Waits = {0, 1}
  Delays = {1}
  EncFails = {FALSE}
  DecFails = {FALSE}
  MaxCb = 1
  MaxTrig = 2
  MaxFire = 3
  CbOn = {1, 3}
  TimerOn = {2, 3}
  Ops = {"request", "complete", "abort", "cabort", "qabort", "gabort", "settle"}
  AddCallbackRefires = FALSE
  CompleteOverridesDone = FALSE
  GroupAbortUnguarded = FALSE
  QueueAbortRaises = FALSE
  AbortIdleNoop = FALSE
  IdleBypass = FALSE
SPECIFICATION Spec
VIEW view
CHECK_DEADLOCK FALSE
INVARIANT TypeOK
INVARIANT OneCompletion
INVARIANT GroupDoneIffMembers
INVARIANT OneActive
INVARIANT QueueOrder
INVARIANT PendingIffQueued
INVARIANT QueuedAreBound
INVARIANT NotEmptyEvent
INVARIANT NoStall
INVARIANT NoResidue
INVARIANT ChainLinked
PROPERTY P_Absorbing
PROPERTY P_CallbackPerCompletion
PROPERTY P_TimerCancelled
PROPERTY P_StartInOrder
PROPERTY P_TriggerProgress
PROPERTY P_AbortRemovesPending
PROPERTY P_AbortFreesController
PROPERTY P_AbortAllPending
PROPERTY P_NoException
PROPERTY P_RefusalChangesNothing
PROPERTY P_TimeoutAborts
PROPERTY P_GroupAbort
PROPERTY P_ChainOutcome
