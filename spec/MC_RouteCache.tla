---- MODULE MC_RouteCache ----
\* C19 at the property's quantifier: 2 source networks x 3 routers x 4 destinations, every argument set,
\* no effective level bound: TLC closes the universe (66 048 states, depth 7), i.e. operation sequences of any length,
\* which includes the "up to length 5" of the property (MC_RouteCache.cfg, deviations off: every property must hold);
\* MC_RouteCache_dev.cfg: the code's known deviations switched on (finding F14): Coherent / DeleteExact must fail.
\* The driver harness/drivers/c19.py generates the same configurations (and smaller ones for the state-graph replay).
EXTENDS RouteCache
c_AttachedInits == {{1}, {2}, {1, 2}}
c_UpdSets == SUBSET {1, 2, 3, 4}
c_DelSets == (SUBSET {1, 2, 3, 4}) \ {{}}
====
