--------------------------------- MODULE TSM ---------------------------------
(***************************************************************************)
(* The confirmed-request transaction state machines of appservice.py       *)
(* (ClientSSM / ServerSSM / StateMachineAccessPoint dispatch) for ONE      *)
(* transaction between one client and one server over a faulty medium.     *)
(*                                                                         *)
(* One action per handler of the code (see DESIGN.md Appendix A.2):        *)
(*   Submit                       sap_indication + ClientSSM.indication    *)
(*   Deliver -> C_segmented_request / C_await_confirmation /               *)
(*              C_segmented_confirmation / S_idle / S_segmented_request /  *)
(*              S_await_response / S_segmented_response                    *)
(*   C_timeout, S_timeout         the six *_timeout methods                *)
(*   AppRespond                   sap_confirmation + ServerSSM.confirmation*)
(*   Drop / Dup / Delay           the medium (counted faults, FIFO per     *)
(*                                direction otherwise)                     *)
(*   Tick                         discrete-event clock                     *)
(* Payload is position coded: segment i carries token i.                   *)
(*                                                                         *)
(* Named deviations from the intended design (= clause 5.4 of the          *)
(* standard), each a Boolean / numeric constant so that TLC can show the   *)
(* property holds with the deviation off and fails with it on:             *)
(*   RecvMult           receiver waits RecvMult * Tseg (standard: 4)       *)
(*   ResendSeg0OnNoWin  server retransmits segment 0 when the first        *)
(*                      segment ack of a response was lost                 *)
(*   IndexFromSeq       segment index := sequence number (breaks > 256)    *)
(*   IgnoreStaleAck     client in SEGMENTED_CONFIRMATION ignores a stale   *)
(*                      server SegmentAck instead of aborting              *)
(*   FinalAckAnyInWindow  any in-window ack ends a fully sent transfer     *)
(*   EchoClientAbort      the server sends a client's abort back to it     *)
(***************************************************************************)
EXTENDS Naturals, Sequences, FiniteSets, TLC

CONSTANTS NQ, NR,            \* number of request / response segments (1 = unsegmented)
          RK,                \* kind of the application's response: "ack", "error", "abort"
          PWC, PWS,          \* proposed window size of client / server
          Retries, Tapdu, Tseg, Tapp,
          AppDelay,          \* how long the server application takes to respond
          RecvMult, SeqMod,
          MaxDrop, MaxDup, MaxDelay, DelayBy,
          MaxShrink,         \* how many segment acks the medium may rewrite to grant a smaller window (a peer that shrinks its window)
          ResendSeg0OnNoWin, IndexFromSeq, IgnoreStaleAck,
          IdleAcceptsAnySeq,   \* TRUE: a segmented request whose first received segment is not number 0 starts a
                               \* transaction all the same -- the pinned tree (finding F25); FALSE: it is answered with an abort
          EchoClientAbort,     \* TRUE: a server transaction that receives the client's abort while it collects the request
                               \* or sends the response hands that abort back to the wire (the pinned tree, F42)
          FinalAckAnyInWindow, \* TRUE: once all segments were sent ANY in-window segment ack (even a negative one
                               \* for an earlier segment) is taken for the final ack -- the pinned tree (finding F24)
          MaxNow             \* state constraint for configurations with unbounded deviations

VARIABLES now, net, nDrop, nDup, nDelay, nShrink,
          c, s,              \* client / server transaction records
          cOut,              \* observation: outcomes delivered to the client application
          sInd,              \* observation: requests indicated to the server application
          sApp,              \* due times of the responses the server application still owes (FIFO)
          wire,              \* observation: every frame ever put on the medium
          tx,                \* frames emitted by the last step
          act                \* the last step: [n |-> name, i |-> frame index]

vars == <<now, net, nDrop, nDup, nDelay, nShrink, c, s, cOut, sInd, sApp, wire, tx, act>>
NONE == 999999

\* ---- frames ------------------------------------------------------------------
\* k: "CR" confirmed request, "CA" complex ack, "SA" simple ack, "ERR" error/reject, "ACK" segment ack, "ABT" abort
F(k, dir, srv, seg, mor, seq, win, nak, tok) ==
   [k |-> k, dir |-> dir, srv |-> srv, seg |-> seg, mor |-> mor, seq |-> seq, win |-> win, nak |-> nak,
    tok |-> tok, at |-> now, late |-> FALSE]

ReqSeg(i, w)  == F("CR", "cs", FALSE, NQ > 1, i < NQ - 1, IF NQ > 1 THEN i % SeqMod ELSE 0, IF NQ > 1 THEN w ELSE 0, FALSE, i)
RespSeg(i, w) == F("CA", "sc", TRUE, NR > 1, i < NR - 1, IF NR > 1 THEN i % SeqMod ELSE 0, IF NR > 1 THEN w ELSE 0, FALSE, i)
Ack(dir, nak, seq, win) == F("ACK", dir, dir = "sc", FALSE, FALSE, seq, win, nak, NONE)
Abt(dir, srv) == F("ABT", dir, srv, FALSE, FALSE, 0, 0, FALSE, NONE)
Simple(k) == F(k, "sc", TRUE, FALSE, FALSE, 0, 0, FALSE, NONE)

Min(a, b) == IF a < b THEN a ELSE b
InWindow(a, b, w) == ((a + SeqMod) - b) % SeqMod < w

RECURSIVE WindowIdx(_, _, _, _)
WindowIdx(start, w, n, acc) ==
   IF w = 0 \/ start >= n THEN acc ELSE WindowIdx(start + 1, w - 1, n, Append(acc, start))

\* ---- initial state -----------------------------------------------------------
CInit == [st |-> "IDLE", retry |-> 0, segRetry |-> 0, init |-> 0, last |-> 0, win |-> NONE,
          sentAll |-> FALSE, ddl |-> NONE, rx |-> <<>>, base |-> 0]
SInit == [st |-> "NOTXN", segRetry |-> 0, init |-> 0, last |-> 0, win |-> NONE,
          sentAll |-> FALSE, ddl |-> NONE, rx |-> <<>>, base |-> 0]

Init == /\ now = 0 /\ net = <<>> /\ nDrop = 0 /\ nDup = 0 /\ nDelay = 0 /\ nShrink = 0
        /\ c = CInit /\ s = SInit /\ cOut = <<>> /\ sInd = <<>> /\ sApp = <<>> /\ wire = <<>> /\ tx = <<>>
        /\ act = [n |-> "Init", i |-> 0]

\* ---- client ------------------------------------------------------------------
\* ClientSSM.indication (also re-entered from await_confirmation_timeout)
CStart(retry) ==
   IF NQ = 1
     THEN [c EXCEPT !.st = "AWAIT_CONF", !.sentAll = TRUE, !.retry = retry, !.ddl = now + Tapdu]
     ELSE [c EXCEPT !.st = "SEG_REQ", !.sentAll = FALSE, !.retry = retry, !.segRetry = 0, !.init = 0,
                    !.win = NONE, !.ddl = now + Tseg, !.base = 0]

Submit == /\ c.st = "IDLE" /\ cOut = <<>> /\ wire = <<>>
          /\ c' = CStart(0)
          /\ tx' = <<ReqSeg(0, PWC)>>
          /\ UNCHANGED <<now, nDrop, nDup, nDelay, nShrink, s, cOut, sInd, sApp>>

CTerminal(st) == [c EXCEPT !.st = st, !.ddl = NONE]
Outcome(k) == cOut' = Append(cOut, [k |-> k, rx |-> IF k = "ack" THEN c'.rx ELSE <<>>, at |-> now])

\* a request the client cannot send at all (it needs segments the peer -- or the client itself -- does not handle, or more
\* of them than the peer is known to accept): refused on the spot; the application gets a local abort (4 = segmentation
\* not supported, 11 = APDU too long), nothing goes on the wire and nothing is kept.  Whether a request is of that kind is a
\* matter of sizes and capabilities (Caps.tla, C12); here it is an input of the trace.
LocalRefusals == {"abort_local_4", "abort_local_11"}
SubmitRefused(r) == /\ c.st = "IDLE" /\ cOut = <<>> /\ wire = <<>> /\ r \in LocalRefusals
                    /\ c' = CTerminal("ABORTED") /\ Outcome(r) /\ tx' = <<>>
                    /\ UNCHANGED <<now, nDrop, nDup, nDelay, nShrink, s, sInd, sApp>>

\* fill_window on the client: the segment index is the sequence number in the code (IndexFromSeq)
CFill(sq, w) ==
   LET startIdx == IF IndexFromSeq THEN sq ELSE c.base + ((sq + SeqMod - (c.base % SeqMod)) % SeqMod)
       idx == WindowIdx(startIdx, w, NQ, <<>>)
   IN [i \in 1..Len(idx) |-> ReqSeg(idx[i], IF idx[i] = 0 THEN PWC ELSE w)]

C_segmented_request(f) ==
   /\ c.st = "SEG_REQ"
   /\ \/ /\ f.k = "ACK"
         /\ IF ~InWindow(f.seq, c.init, f.win)
              THEN /\ c' = [c EXCEPT !.win = f.win, !.ddl = now + Tseg]
                   /\ tx' = <<>> /\ UNCHANGED cOut
            ELSE IF c.sentAll /\ (FinalAckAnyInWindow \/ f.seq = (NQ - 1) % SeqMod)
              THEN /\ c' = [c EXCEPT !.win = f.win, !.st = "AWAIT_CONF", !.ddl = now + Tapdu]
                   /\ tx' = <<>> /\ UNCHANGED cOut
            ELSE LET nsq == (f.seq + 1) % SeqMod
                     fs == CFill(nsq, f.win)
                     nbase == IF Len(fs) = 0 THEN c.base ELSE fs[1].tok IN
                 /\ c' = [c EXCEPT !.win = f.win, !.init = nsq, !.segRetry = 0, !.ddl = now + Tseg,
                                   !.base = nbase,
                                   !.sentAll = (c.sentAll \/ (Len(fs) > 0 /\ ~fs[Len(fs)].mor))]
                 /\ tx' = fs /\ UNCHANGED cOut
      \/ /\ f.k = "SA"
         /\ IF ~c.sentAll
              THEN /\ c' = CTerminal("ABORTED") /\ tx' = <<Abt("cs", FALSE)>> /\ Outcome("abort_invalid")
              ELSE /\ c' = CTerminal("COMPLETED") /\ Outcome("ack") /\ tx' = <<>>
      \/ /\ f.k = "CA"
         /\ IF ~c.sentAll
              THEN /\ c' = CTerminal("ABORTED") /\ tx' = <<Abt("cs", FALSE)>> /\ Outcome("abort_invalid")
            ELSE IF ~f.seg
              THEN /\ c' = [CTerminal("COMPLETED") EXCEPT !.rx = <<f.tok>>] /\ Outcome("ack") /\ tx' = <<>>
            ELSE /\ c' = [c EXCEPT !.st = "SEG_CONF", !.rx = <<f.tok>>, !.win = Min(f.win, PWC),
                                   !.last = 0, !.init = 0, !.ddl = now + Tseg * RecvMult]
                 /\ tx' = <<>> /\ UNCHANGED cOut      \* no segment ack is sent on this path (as in the code)
      \/ /\ f.k \in {"ERR", "ABT"}
         /\ c' = CTerminal("COMPLETED") /\ Outcome(IF f.k = "ERR" THEN "error" ELSE "abort_peer") /\ tx' = <<>>

C_segmented_request_timeout ==
   /\ c.st = "SEG_REQ" /\ c.ddl # NONE /\ c.ddl <= now
   /\ IF c.segRetry < Retries
        THEN /\ tx' = IF (IF IndexFromSeq THEN c.init ELSE c.base) = 0 THEN <<ReqSeg(0, PWC)>> ELSE CFill(c.init, c.win)
             /\ c' = [c EXCEPT !.segRetry = c.segRetry + 1, !.ddl = now + Tseg]
             /\ UNCHANGED cOut
        ELSE /\ c' = CTerminal("ABORTED") /\ Outcome("abort_noresp") /\ tx' = <<>>

C_await_confirmation(f) ==
   /\ c.st = "AWAIT_CONF"
   /\ \/ /\ f.k = "ABT" /\ c' = CTerminal("ABORTED") /\ Outcome("abort_peer") /\ tx' = <<>>
      \/ /\ f.k = "SA" /\ c' = CTerminal("COMPLETED") /\ Outcome("ack") /\ tx' = <<>>
      \/ /\ f.k = "ERR" /\ c' = CTerminal("COMPLETED") /\ Outcome("error") /\ tx' = <<>>
      \/ /\ f.k = "CA"
         /\ IF ~f.seg
              THEN /\ c' = [CTerminal("COMPLETED") EXCEPT !.rx = <<f.tok>>] /\ Outcome("ack") /\ tx' = <<>>
            ELSE IF f.seq = 0
              THEN /\ c' = [c EXCEPT !.st = "SEG_CONF", !.rx = <<f.tok>>, !.win = f.win, !.last = 0, !.init = 0,
                                     !.ddl = now + Tseg * RecvMult]
                   /\ tx' = <<Ack("cs", FALSE, 0, f.win)>> /\ UNCHANGED cOut
            ELSE /\ c' = CTerminal("ABORTED") /\ tx' = <<Abt("cs", FALSE)>> /\ Outcome("abort_invalid")
      \/ /\ f.k = "ACK" /\ c' = [c EXCEPT !.ddl = now + Tseg] /\ tx' = <<>> /\ UNCHANGED cOut

C_await_confirmation_timeout ==
   /\ c.st = "AWAIT_CONF" /\ c.ddl # NONE /\ c.ddl <= now
   /\ IF c.retry < Retries
        THEN /\ c' = CStart(c.retry + 1) /\ tx' = <<ReqSeg(0, PWC)>> /\ UNCHANGED cOut
        ELSE /\ c' = CTerminal("ABORTED") /\ Outcome("abort_noresp") /\ tx' = <<>>

C_segmented_confirmation(f) ==
   /\ c.st = "SEG_CONF"
   /\ IF f.k = "ACK" /\ IgnoreStaleAck
        THEN tx' = <<>> /\ UNCHANGED <<c, cOut>>
      ELSE IF f.k # "CA" \/ ~f.seg
        THEN /\ c' = CTerminal("ABORTED") /\ tx' = <<Abt("cs", FALSE)>> /\ Outcome("abort_invalid")
      ELSE IF f.seq # (c.last + 1) % SeqMod
        THEN /\ c' = [c EXCEPT !.ddl = now + Tseg * RecvMult]
             /\ tx' = <<Ack("cs", TRUE, c.last, c.win)>> /\ UNCHANGED cOut
      ELSE IF ~f.mor
        THEN /\ c' = [CTerminal("COMPLETED") EXCEPT !.rx = Append(c.rx, f.tok), !.last = f.seq]
             /\ tx' = <<Ack("cs", FALSE, f.seq, c.win)>> /\ Outcome("ack")
      ELSE IF f.seq = (c.init + c.win) % SeqMod
        THEN /\ c' = [c EXCEPT !.rx = Append(c.rx, f.tok), !.last = f.seq, !.init = f.seq, !.ddl = now + Tseg * RecvMult]
             /\ tx' = <<Ack("cs", FALSE, f.seq, c.win)>> /\ UNCHANGED cOut
      ELSE /\ c' = [c EXCEPT !.rx = Append(c.rx, f.tok), !.last = f.seq, !.ddl = now + Tseg * RecvMult]
           /\ tx' = <<>> /\ UNCHANGED cOut

C_segmented_confirmation_timeout ==
   /\ c.st = "SEG_CONF" /\ c.ddl # NONE /\ c.ddl <= now
   /\ c' = CTerminal("ABORTED") /\ Outcome("abort_noresp") /\ tx' = <<>>

\* StateMachineAccessPoint.confirmation on the client node: acks/errors/rejects and srv=TRUE segment acks / aborts
\* are looked up in clientTransactions; everything else finds no transaction there and is ignored
ClientRecv(f) ==
   /\ f.dir = "sc"
   /\ IF c.st \in {"SEG_REQ", "AWAIT_CONF", "SEG_CONF"} /\ (f.k \in {"SA", "CA", "ERR"} \/ (f.k \in {"ACK", "ABT"} /\ f.srv))
        THEN C_segmented_request(f) \/ C_await_confirmation(f) \/ C_segmented_confirmation(f)
        ELSE tx' = <<>> /\ UNCHANGED <<c, cOut>>
   /\ UNCHANGED <<s, sInd, sApp>>

\* ---- server ------------------------------------------------------------------
STerminal(st) == [s EXCEPT !.st = st, !.ddl = NONE]

SFill(sq, w) ==
   LET startIdx == IF IndexFromSeq THEN sq ELSE s.base + ((sq + SeqMod - (s.base % SeqMod)) % SeqMod)
       idx == WindowIdx(startIdx, w, NR, <<>>)
   IN [i \in 1..Len(idx) |-> RespSeg(idx[i], IF idx[i] = 0 THEN PWS ELSE w)]

S_idle(f) ==
   /\ s.st \in {"NOTXN", "GONE"} /\ f.k = "CR"
   /\ IF ~f.seg
        THEN /\ s' = [SInit EXCEPT !.st = "AWAIT_RESP", !.ddl = now + Tapp, !.rx = <<f.tok>>]
             /\ sInd' = Append(sInd, <<f.tok>>) /\ sApp' = Append(sApp, now + AppDelay) /\ tx' = <<>>
        ELSE IF f.seq # 0 /\ ~IdleAcceptsAnySeq
          THEN /\ s' = STerminal("GONE") /\ tx' = <<Abt("sc", TRUE)>> /\ UNCHANGED <<sInd, sApp>>
        ELSE /\ s' = [SInit EXCEPT !.st = "SEG_REQ", !.rx = <<f.tok>>, !.win = Min(f.win, PWS),
                                   !.ddl = now + Tseg * RecvMult]
             /\ tx' = <<Ack("sc", FALSE, 0, Min(f.win, PWS))>> /\ UNCHANGED <<sInd, sApp>>

S_segmented_request(f) ==
   /\ s.st = "SEG_REQ"
   /\ IF f.k = "ABT" THEN s' = STerminal("GONE") /\ tx' = (IF EchoClientAbort THEN <<[f EXCEPT !.dir = "sc", !.at = now]>> ELSE <<>>)
                           /\ UNCHANGED <<sInd, sApp>>
      ELSE IF f.k # "CR" \/ ~f.seg THEN s' = STerminal("GONE") /\ tx' = <<Abt("sc", TRUE)>> /\ UNCHANGED <<sInd, sApp>>
      ELSE IF f.seq # (s.last + 1) % SeqMod
        THEN /\ s' = [s EXCEPT !.ddl = now + Tseg * RecvMult]
             /\ tx' = <<Ack("sc", TRUE, s.init, s.win)>> /\ UNCHANGED <<sInd, sApp>>
      ELSE IF ~f.mor
        THEN /\ s' = [s EXCEPT !.st = "AWAIT_RESP", !.rx = Append(s.rx, f.tok), !.last = f.seq, !.ddl = now + Tapp]
             /\ tx' = <<Ack("sc", FALSE, f.seq, s.win)>>
             /\ sInd' = Append(sInd, Append(s.rx, f.tok)) /\ sApp' = Append(sApp, now + AppDelay)
      ELSE IF f.seq = (s.init + s.win) % SeqMod
        THEN /\ s' = [s EXCEPT !.rx = Append(s.rx, f.tok), !.last = f.seq, !.init = f.seq, !.ddl = now + Tseg * RecvMult]
             /\ tx' = <<Ack("sc", FALSE, f.seq, s.win)>> /\ UNCHANGED <<sInd, sApp>>
      ELSE /\ s' = [s EXCEPT !.rx = Append(s.rx, f.tok), !.last = f.seq, !.ddl = now + Tseg * RecvMult]
           /\ tx' = <<>> /\ UNCHANGED <<sInd, sApp>>

S_await_response(f) ==
   /\ s.st = "AWAIT_RESP"
   /\ IF f.k = "ABT" THEN s' = STerminal("GONE") /\ tx' = <<>> /\ UNCHANGED <<sInd, sApp>>
      ELSE tx' = <<>> /\ UNCHANGED <<s, sInd, sApp>>          \* duplicate request: not indicated again

\* the application answers the oldest request it still owes a response for; if the transaction is gone
\* (client abort, application timeout) sap_confirmation finds no transaction and the response is dropped
AppRespond ==
   /\ sApp # <<>> /\ Head(sApp) <= now
   /\ sApp' = Tail(sApp)
   \* (ServerSSM.confirmation only warns when the state is not AWAIT_RESPONSE and carries on: a response that
   \* the application produced for an earlier copy of the request is sent from whatever state the live
   \* transaction with that invoke ID is in)
   /\ IF s.st \in {"NOTXN", "GONE"} THEN tx' = <<>> /\ UNCHANGED s
      ELSE IF RK = "abort" THEN s' = STerminal("GONE") /\ tx' = <<Abt("sc", TRUE)>>
      ELSE IF RK = "error" THEN s' = STerminal("GONE") /\ tx' = <<Simple("ERR")>>
      ELSE IF NR = 0 THEN s' = STerminal("GONE") /\ tx' = <<Simple("SA")>>
      ELSE IF NR = 1 THEN s' = STerminal("GONE") /\ tx' = <<RespSeg(0, PWS)>>
      ELSE /\ s' = [s EXCEPT !.st = "SEG_RESP", !.segRetry = 0, !.init = 0, !.win = NONE, !.sentAll = FALSE,
                             !.base = 0, !.ddl = now + Tseg]
           /\ tx' = <<RespSeg(0, PWS)>>
   /\ UNCHANGED <<now, nDrop, nDup, nDelay, nShrink, c, cOut, sInd>>

S_segmented_response(f) ==
   /\ s.st = "SEG_RESP"
   /\ IF f.k = "ACK"
        THEN IF ~InWindow(f.seq, s.init, f.win)
               THEN s' = [s EXCEPT !.win = f.win, !.ddl = now + Tseg] /\ tx' = <<>>
             ELSE IF s.sentAll /\ (FinalAckAnyInWindow \/ f.seq = (NR - 1) % SeqMod)
               THEN s' = [STerminal("GONE") EXCEPT !.win = f.win] /\ tx' = <<>>
             ELSE LET nsq == (f.seq + 1) % SeqMod
                      fs == SFill(nsq, f.win)
                      nbase == IF Len(fs) = 0 THEN s.base ELSE fs[1].tok IN
                  /\ s' = [s EXCEPT !.win = f.win, !.init = nsq, !.segRetry = 0, !.ddl = now + Tseg, !.base = nbase,
                                    !.sentAll = (s.sentAll \/ (Len(fs) > 0 /\ ~fs[Len(fs)].mor))]
                  /\ tx' = fs
      ELSE IF f.k = "ABT" THEN s' = STerminal("GONE") /\ tx' = (IF EchoClientAbort THEN <<[f EXCEPT !.dir = "sc", !.at = now]>> ELSE <<>>)
      ELSE tx' = <<>> /\ UNCHANGED s
   /\ UNCHANGED <<sInd, sApp>>

\* StateMachineAccessPoint.confirmation on the server node
ServerRecv(f) ==
   /\ f.dir = "cs"
   /\ \/ S_idle(f)
      \/ /\ f.k = "CR" \/ (f.k \in {"ACK", "ABT"} /\ ~f.srv)
         /\ (S_segmented_request(f) \/ S_await_response(f) \/ S_segmented_response(f))
      \/ /\ ~(s.st \in {"NOTXN", "GONE"} /\ f.k = "CR")
         /\ ~(s.st \in {"SEG_REQ", "AWAIT_RESP", "SEG_RESP"} /\ (f.k = "CR" \/ (f.k \in {"ACK", "ABT"} /\ ~f.srv)))
         /\ tx' = <<>> /\ UNCHANGED <<s, sInd, sApp>>
   /\ UNCHANGED <<c, cOut>>

S_timeout ==
   /\ s.ddl # NONE /\ s.ddl <= now
   /\ \/ /\ s.st = "SEG_REQ" /\ s' = STerminal("GONE") /\ tx' = <<>> /\ UNCHANGED sApp
      \/ /\ s.st = "AWAIT_RESP" /\ s' = STerminal("GONE") /\ tx' = <<>> /\ UNCHANGED sApp
      \/ /\ s.st = "SEG_RESP"
         /\ IF s.segRetry < Retries
              THEN /\ s' = [s EXCEPT !.segRetry = s.segRetry + 1, !.ddl = now + Tseg]
                   /\ tx' = IF s.win = NONE
                              THEN (IF ResendSeg0OnNoWin THEN <<RespSeg(0, PWS)>> ELSE <<>>)
                              ELSE SFill(s.init, s.win)
                   /\ UNCHANGED sApp
              ELSE s' = STerminal("GONE") /\ tx' = <<>> /\ UNCHANGED sApp
   /\ UNCHANGED <<now, nDrop, nDup, nDelay, nShrink, c, cOut, sInd>>

C_timeout ==
   /\ (C_segmented_request_timeout \/ C_await_confirmation_timeout \/ C_segmented_confirmation_timeout)
   /\ UNCHANGED <<now, nDrop, nDup, nDelay, nShrink, s, sInd, sApp>>

\* ---- medium: per-direction FIFO; Drop / Dup / Delay are counted faults -------------
RemoveAt(q, i) == SubSeq(q, 1, i - 1) \o SubSeq(q, i + 1, Len(q))
InsertAfter(q, i, e) == SubSeq(q, 1, i) \o <<e>> \o SubSeq(q, i + 1, Len(q))
\* frames of one direction arrive in the order sent -- except a frame the medium held back (Delay): once it is due it is
\* a straggler that neither waits for the frames sent before it nor keeps back the ones sent after it (reordering)
DeliverableAt(i) == /\ net[i].at <= now
                    /\ (net[i].late \/ \A j \in 1..(i - 1) : (net[j].dir = net[i].dir /\ ~net[j].late) => net[j].at > now)
AnyDeliverable == \E i \in 1..Len(net) : net[i].at <= now

Deliver(i) ==
   /\ DeliverableAt(i)
   /\ LET f == net[i] IN
      \/ /\ f.dir = "sc" /\ ClientRecv(f)
      \/ /\ f.dir = "cs" /\ ServerRecv(f)
   /\ net' = RemoveAt(net, i) \o tx' /\ wire' = wire \o tx'
   /\ act' = [n |-> "Deliver", i |-> i]
   /\ UNCHANGED <<now, nDrop, nDup, nDelay, nShrink>>

Quiet == tx' = <<>> /\ UNCHANGED <<c, s, cOut, sInd, sApp, wire>>
Drop(i) == /\ nDrop < MaxDrop /\ DeliverableAt(i)
           /\ net' = RemoveAt(net, i) /\ nDrop' = nDrop + 1 /\ act' = [n |-> "Drop", i |-> i]
           /\ Quiet /\ UNCHANGED <<now, nDup, nDelay, nShrink>>
Dup(i)  == /\ nDup < MaxDup /\ DeliverableAt(i)
           /\ net' = InsertAfter(net, i, net[i]) /\ nDup' = nDup + 1 /\ act' = [n |-> "Dup", i |-> i]
           /\ Quiet /\ UNCHANGED <<now, nDrop, nDelay, nShrink>>
Delay(i) == /\ nDelay < MaxDelay /\ DeliverableAt(i) /\ net[i].at = now
            /\ net' = [net EXCEPT ![i].at = now + DelayBy, ![i].late = TRUE]
            /\ nDelay' = nDelay + 1 /\ act' = [n |-> "Delay", i |-> i]
            /\ Quiet /\ UNCHANGED <<now, nDrop, nDup, nShrink>>

\* the peer grants a smaller window in a segment ack than before (modelled as the medium rewriting the ack)
Shrink(i) == /\ nShrink < MaxShrink /\ DeliverableAt(i) /\ net[i].k = "ACK" /\ net[i].win > 1
             /\ net' = [net EXCEPT ![i].win = 1] /\ nShrink' = nShrink + 1 /\ act' = [n |-> "Shrink", i |-> i]
             /\ Quiet /\ UNCHANGED <<now, nDrop, nDup, nDelay>>

Timers == {t \in {c.ddl, s.ddl} : t # NONE}
Deadlines == Timers \cup {net[i].at : i \in 1..Len(net)} \cup {sApp[i] : i \in 1..Len(sApp)}
Tick == /\ ~AnyDeliverable /\ (IF sApp = <<>> THEN TRUE ELSE Head(sApp) > now)
        /\ \A t \in Timers : t > now
        /\ Deadlines # {}
        /\ now' = CHOOSE t \in Deadlines : \A u \in Deadlines : t <= u
        /\ net' = net /\ Quiet /\ act' = [n |-> "Tick", i |-> 0] /\ UNCHANGED <<nDrop, nDup, nDelay, nShrink>>

Emit0 == net' = net \o tx' /\ wire' = wire \o tx'
Next == \/ Submit /\ Emit0 /\ act' = [n |-> "Submit", i |-> 0]
        \/ \E i \in 1..Len(net) : Deliver(i) \/ Drop(i) \/ Dup(i) \/ Delay(i) \/ Shrink(i)
        \/ C_timeout /\ Emit0 /\ act' = [n |-> "CTimeout", i |-> 0]
        \/ S_timeout /\ Emit0 /\ act' = [n |-> "STimeout", i |-> 0]
        \/ AppRespond /\ Emit0 /\ act' = [n |-> "AppRespond", i |-> 0]
        \/ Tick

Spec == Init /\ [][Next]_vars
TimeBound == now <= MaxNow /\ Len(c.rx) <= NR + 2 /\ Len(s.rx) <= NQ + 2

\* ---- properties --------------------------------------------------------------
Quiescent == net = <<>> /\ Timers = {} /\ sApp = <<>> /\ wire # <<>>
Faults == nDrop + nDup + nDelay + nShrink
Expected(n) == [i \in 1..n |-> i - 1]
IsData(f) == f.k \in {"CR", "CA"}

\* C04
AtMostOneOutcome == Len(cOut) <= 1
ExactlyOneAtQuiescence == Quiescent => Len(cOut) = 1
OutcomeKind == \A i \in 1..Len(cOut) : cOut[i].k \in {"ack", "error", "abort_peer", "abort_noresp", "abort_invalid"} \cup LocalRefusals
NoResidue == Quiescent => c.st \in {"COMPLETED", "ABORTED"} /\ s.st \in {"NOTXN", "GONE"}
\* once the outcome was delivered the client emits nothing more for the transaction, except the final segment ack /
\* abort that is part of the step delivering the outcome
A_SilenceAfterOutcome == Len(cOut) = 1 => \A i \in 1..Len(tx') : tx'[i].dir # "cs"
SilenceAfterOutcome == [][A_SilenceAfterOutcome]_vars
\* the outcome arrives no later than this bound, whatever the medium does
Bound == (Retries + 1) * (Tapdu + (NQ + NR + 2) * Tseg * 4 + Tapp) + DelayBy * MaxDelay
BoundedTime == (Len(cOut) = 0 => now <= Bound) /\ (\A i \in 1..Len(cOut) : cOut[i].at <= Bound)
NumFirstSegs == Cardinality({i \in 1..Len(wire) : wire[i].k = "CR" /\ wire[i].tok = 0})
\* a local no-response abort while awaiting the confirmation comes only after all retries were spent
A_AbortOnlyAfterAllRetries == (c.st = "AWAIT_CONF" /\ act'.n = "CTimeout" /\ c'.st = "ABORTED") =>
                                 (IF NQ = 1 THEN NumFirstSegs = Retries + 1 ELSE NumFirstSegs >= Retries + 1)
AbortOnlyAfterAllRetries == [][A_AbortOnlyAfterAllRetries]_vars
\* a request is not indicated again while the application is still working on it
A_NoDoubleIndication == s.st = "AWAIT_RESP" => sInd' = sInd
NoDoubleIndicationWhileBusy == [][A_NoDoubleIndication]_vars
\* C05
ResponseIntegrity == \A i \in 1..Len(cOut) : cOut[i].k = "ack" => cOut[i].rx = Expected(NR)
RequestIntegrity == \A i \in 1..Len(sInd) : sInd[i] = Expected(NQ)
\* what the client has reassembled so far is always a prefix of the response
ClientRxIsPrefix == c.st = "SEG_CONF" => \A i \in 1..Len(c.rx) : c.rx[i] = i - 1
MoreFollows == \A i \in 1..Len(wire) : IsData(wire[i]) /\ wire[i].seg =>
                  (wire[i].mor <=> wire[i].tok < (IF wire[i].k = "CR" THEN NQ ELSE NR) - 1)
SeqMatchesIndex == \A i \in 1..Len(wire) : IsData(wire[i]) /\ wire[i].seg => wire[i].seq = wire[i].tok % SeqMod
WindowBound == LET d == SelectSeq(tx, IsData) IN Len(d) > 1 => Len(d) <= d[1].win
\* after a segment ack the sender never bursts more segments than that ack grants
A_WindowRespectsAck == (act'.n = "Deliver" /\ net[act'.i].k = "ACK") => Len(SelectSeq(tx', IsData)) <= net[act'.i].win
WindowRespectsAck == [][A_WindowRespectsAck]_vars
WindowRange == \A i \in 1..Len(wire) : (wire[i].k = "ACK" \/ (IsData(wire[i]) /\ wire[i].seg)) =>
                  wire[i].win \in 1..127
\* deliberately false: used to show that the local no-response abort is reachable (vacuity check)
SanityNoLocalAbort == \A i \in 1..Len(cOut) : cOut[i].k # "abort_noresp"
Want == IF RK = "abort" THEN "abort_peer" ELSE RK
\* (a lost frame can only be repaired by a retransmission, so at least one retry must be configured)
SingleFaultRepaired == (Quiescent /\ Faults <= 1 /\ nShrink = 0 /\ AppDelay < Tapp /\ (Faults = 0 \/ Retries >= 1)) => (Len(cOut) = 1 /\ cOut[1].k = Want)
FaultFreeSucceeds == (Quiescent /\ Faults = 0 /\ AppDelay < Tapp) => (Len(cOut) = 1 /\ cOut[1].k = Want)
=============================================================================
