--------------------------- MODULE Trace_TSMcaps ---------------------------
(* Validation of recorded real transactions against TSMcaps.tla: each record {id, c, o} is one transaction of the real *)
(* ClientSSM/ServerSSM pair under capability settings c with observation o (frame lengths measured on the wire).       *)
(* TLC prints, per record, the C12 clauses that o violates and whether o differs from the intended design's own output. *)
EXTENDS TSMcaps, Json, IOUtils
Recs == ndJsonDeserialize(IOEnv.TRACE_FILE)
VARIABLE i
Init == i \in 1..Len(Recs)
Next == UNCHANGED i
Bad(c, o) == (IF ApduFits(c, o) THEN {} ELSE {"ApduFits"}) \cup
             (IF SegmentedOnlyIfAllowed(c, o) THEN {} ELSE {"SegmentedOnlyIfAllowed"}) \cup
             (IF AbortInsteadOfOversize(c, o) THEN {} ELSE {"AbortInsteadOfOversize"}) \cup
             (IF WindowRange(c, o) THEN {} ELSE {"WindowRange"})
DiffFields(c, o) == LET d == ObsOfDecide(c) IN {f \in DOMAIN d : d[f] # o[f]}
Report == LET r == Recs[i] IN
          IF Bad(r.c, r.o) = {} /\ DiffFields(r.c, r.o) = {} THEN TRUE
          ELSE PrintT(<<"@@", [id |-> r.id, bad |-> Bad(r.c, r.o), dev |-> DiffFields(r.c, r.o), want |-> ObsOfDecide(r.c)]>>)
Spec == Init /\ [][Next]_i
=============================================================================
