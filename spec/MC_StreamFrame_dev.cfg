CONSTANTS
  Framings = {"tl", "lp", "bsll"}
  Alphabet = {0, 1, 3, 4, 5, 131}
  MaxLen = 5
  ShortLengthStalls = TRUE
SPECIFICATION Spec
CHECK_DEADLOCK FALSE
INVARIANT I_FrameProgress
INVARIANT I_FrameSplits
INVARIANT I_FrameExact
INVARIANT I_FrameIsFrame
INVARIANT I_ExtractExhausts
