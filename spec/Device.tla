------------------------------- MODULE Device -------------------------------
(***************************************************************************)
(* C10 -- a BACnet/IP device answers every well-framed request and stays   *)
(* healthy under garbage.                                                  *)
(*                                                                         *)
(* The device is a reactive machine over CLASSIFIED inputs.  The class of  *)
(* a concrete datagram is computed by this specification from the three    *)
(* header codecs (BVLL.Dec, NPCI.Dec, APCI.Dec -- the modules of C09, C08, *)
(* C07): part 1.  The clauses of the property are operators over an        *)
(* OBSERVATION (what was ingested in one deferred batch, what the device   *)
(* sent, what it still holds afterwards, how it answered a following valid *)
(* request): part 2.  They are evaluated by TLC                            *)
(*   - on every behaviour of the design model of part 3 (MC_Device), and   *)
(*   - on every execution recorded from the real stack (Trace_Device).     *)
(*                                                                         *)
(* Expected(c): the three FIXED HEADERS decode -- BVLL original-unicast /  *)
(* original-broadcast with consistent length, NPCI version 1, application  *)
(* message, no DADR or the global broadcast, APCI complete UNSEGMENTED     *)
(* confirmed-request header -- => exactly one reply to the requester whose *)
(* APDU carries the invoke ID and is a SimpleACK / ComplexACK / Error /    *)
(* Reject / Abort(server).  Anything else => no reply required (one is     *)
(* tolerated where a confirmed request may have been seen).  WHICH of the  *)
(* kinds comes back for a mutated body is deliberately not decided here.   *)
(* A request with the segmented-message bit is an incomplete segmented     *)
(* request: only NoLeftover applies to it.                                 *)
(***************************************************************************)
EXTENDS Integers, Sequences, FiniteSets, TLC

B == INSTANCE BVLL
N == INSTANCE NPCI
A == INSTANCE APCI

NONE == -1
Range(s) == {s[i] : i \in 1..Len(s)}
Max2(a, b) == IF a >= b THEN a ELSE b

(***************************************************************************)
(* Part 1 -- classification of a datagram by the codec specifications      *)
(***************************************************************************)
\* link layer: which BVLL function, and the NPDU it carries upward (BIPSimple passes 0A, 0B, 04 upward)
Link(d) ==
    LET b == B!Dec(d) IN
    IF B!IsErr(b) THEN [k |-> IF b = B!DecodingError THEN "bad" ELSE "unknown", npdu |-> <<>>]
    ELSE IF b.fn = B!FnOrigUnicast   THEN [k |-> "ucast", npdu |-> b.npdu]
    ELSE IF b.fn = B!FnOrigBroadcast THEN [k |-> "bcast", npdu |-> b.npdu]
    ELSE IF b.fn = B!FnForwarded     THEN [k |-> "fwd",   npdu |-> b.npdu]
    ELSE [k |-> "other", npdu |-> <<>>]

\* network layer: version 1; application message or network message; for this device, for everybody, for another network
Net(npdu) ==
    LET n == N!Dec(npdu) IN
    IF N!IsErr(n) THEN [k |-> IF n = N!Unspecified THEN "unspec" ELSE "bad", apdu |-> <<>>, routed |-> FALSE]
    ELSE IF n.mtype # N!NONE THEN [k |-> "netmsg", apdu |-> <<>>, routed |-> FALSE]
    ELSE [k |-> CASE n.dadr.k = "none" -> "local" [] n.dadr.k = "global" -> "global" [] OTHER -> "remote",
          apdu |-> n.data,
          routed |-> n.sadr.k # "none"]         \* SNET/SADR present: the requester sits behind a router

\* application layer: the fixed header of the APDU
NoApp(k) == [k |-> k, inv |-> NONE, svc |-> NONE, maxresp |-> NONE, sa |-> FALSE, seq |-> NONE]
App(apdu) ==
    LET a == A!Dec(apdu) IN
    IF a = A!Err THEN NoApp("bad")
    ELSE IF a.type = "ConfirmedRequest"
         THEN [k |-> IF a.seg THEN "cseg" ELSE "creq", inv |-> a.invoke, svc |-> a.service, maxresp |-> a.maxresp,
               sa |-> a.sa, seq |-> a.seq]
    ELSE IF a.type = "UnconfirmedRequest"
         THEN [k |-> "ureq", inv |-> NONE, svc |-> a.service, maxresp |-> NONE, sa |-> FALSE, seq |-> NONE]
    ELSE NoApp("resp")

\* the class of a datagram: [link, net, app, inv, svc, maxresp, sa, routed]
\* (routed: the transaction belongs to a station other than the IP sender -- SADR present, or a Forwarded-NPDU)
Class(d) ==
    LET l == Link(d) IN
    IF l.k \notin {"ucast", "bcast", "fwd"}
    THEN [link |-> l.k, net |-> "na", app |-> "na", inv |-> NONE, svc |-> NONE, maxresp |-> NONE, sa |-> FALSE, routed |-> FALSE]
    ELSE LET n == Net(l.npdu) IN
         IF n.k \notin {"local", "global", "remote"}
         THEN [link |-> l.k, net |-> n.k, app |-> "na", inv |-> NONE, svc |-> NONE, maxresp |-> NONE, sa |-> FALSE,
               routed |-> l.k = "fwd"]
         ELSE LET a == App(n.apdu) IN
              [link |-> l.k, net |-> n.k, app |-> a.k, inv |-> a.inv, svc |-> a.svc, maxresp |-> a.maxresp, sa |-> a.sa,
               routed |-> n.routed \/ l.k = "fwd"]

\* ---- Expected ------------------------------------------------------------------------------------------
\* the three fixed headers are intact and the request is for this device: a reply is REQUIRED
Required(c) == c.link \in {"ucast", "bcast"} /\ c.net \in {"local", "global"} /\ c.app = "creq"
\* the device may have seen (a piece of) a confirmed request: a reply is tolerated
Permitted(c) == c.link \in {"ucast", "bcast", "fwd"} /\ c.net \in {"local", "global", "unspec"}
                /\ c.app \in {"creq", "cseg", "na"} /\ (c.app = "na" => c.net = "unspec")
Expected(c) == IF Required(c) THEN "exactly-one-reply" ELSE IF Permitted(c) THEN "at-most-one-reply" ELSE "no-reply-required"
\* a DeviceCommunicationControl request may legitimately silence the device for what follows
MayDisable(c) == Permitted(c) /\ c.svc \in {17, NONE}

\* ---- what the device sent --------------------------------------------------------------------------------
ReplyKinds == {"SimpleAck", "ComplexAck", "Error", "Reject", "Abort"}
\* APDUs a server sends about a transaction: the reply kinds plus a segment ack and an abort with the wrong direction bit
Family == ReplyKinds \cup {"SegmentAck", "AbortAsClient"}
NoView(k) == [k |-> k, inv |-> NONE, svc |-> NONE, seg |-> FALSE, seq |-> NONE, apdu |-> <<>>]
View(o) ==
    LET l == Link(o) IN
    IF l.k \notin {"ucast", "bcast"} THEN NoView(IF l.k \in {"bad", "unknown"} THEN "junk" ELSE "bvll")
    ELSE LET n == N!Dec(l.npdu) IN
         IF N!IsErr(n) THEN NoView("junk")
         ELSE IF n.mtype # N!NONE THEN NoView("netmsg")
         ELSE LET a == A!Dec(n.data) IN
              IF a = A!Err THEN NoView("junk")
              ELSE [k |-> CASE a.type = "Abort" -> (IF a.srv THEN "Abort" ELSE "AbortAsClient")
                            [] a.type = "SegmentAck" -> (IF a.srv THEN "SegmentAck" ELSE "SegmentAckAsClient")
                            [] OTHER -> a.type,
                    inv |-> IF a.type = "UnconfirmedRequest" THEN NONE ELSE a.invoke,
                    svc |-> IF a.type \in {"ConfirmedRequest", "UnconfirmedRequest", "SimpleAck", "ComplexAck", "Error"}
                            THEN a.service ELSE NONE,
                    seg |-> IF a.type \in {"ComplexAck", "ConfirmedRequest"} THEN a.seg ELSE FALSE,
                    seq |-> IF a.type \in {"ComplexAck", "ConfirmedRequest"} THEN a.seq ELSE NONE,
                    apdu |-> n.data]

\* ---- literal transcriptions used to decide "answered correctly with the right value" ------------------------
\* (clause 20.2.14 object identifier; 15.5 ReadProperty; 20.1.5 ComplexACK; 20.1.4 SimpleACK; Real = tag 4, 4 octets)
ObjId(t, i) == <<t \div 4, (t % 4) * 64 + (i \div 65536), (i \div 256) % 256, i % 256>>
PresentValue == 85
\* unsegmented ReadProperty request of present-value: flags (segmented-response-accepted or not), max-segs/max-resp octet
RPRequest(flags, mm, inv, t, i) == <<flags, mm, inv, 12, 12>> \o ObjId(t, i) \o <<25, PresentValue>>
RPAck(inv, t, i, real4) == <<48, inv, 12, 12>> \o ObjId(t, i) \o <<25, PresentValue, 62, 68>> \o real4 \o <<63>>
SimpleAck(inv, svc) == <<32, inv, svc>>
IAmService == 0
WhoIsService == 8

(***************************************************************************)
(* Part 2 -- the clauses of C10 over an observation                        *)
(*                                                                         *)
(* obs = [ batch : Seq([c : class, src : station, role : "g" | "rp" | "whois", want : payload]),               *)
(*         out0  : Seq([to : station, v : view])    sent while the batch was drained (same instant)            *)
(*         out1  : Seq([to, v])                     sent while time advanced past every protocol timeout       *)
(*         res0, res1, res2 : [srv : set of <<src, inv>>, ntx : server transactions, cli, timers, deferred]    *)
(*                            right after the batch / after the timeouts elapsed / after the follow-up         *)
(*         fu    : Seq([c, src, want])              the follow-up valid requests, in order                     *)
(*         fuout : Seq([to, v]), reenabled : BOOLEAN ]                                                         *)
(* `want` / v.apdu are payloads compared for equality only (octets on the real device, tokens in the model).   *)
(***************************************************************************)
Key(e) == <<e.src, e.c.inv>>
\* the key under which the device files the transaction: stations behind a router / a BBMD are station 3 ("elsewhere")
Elsewhere == 3
TKey(e) == <<IF e.c.routed THEN Elsewhere ELSE e.src, e.c.inv>>
\* two elements of one batch that could be taken for the same transaction are left to NoLeftover / StillHealthy only
UniqueKey(batch, i) == \A j \in (1..Len(batch)) \ {i} :
                           (Permitted(batch[j].c) /\ batch[j].src = batch[i].src) =>
                               (batch[j].c.inv # NONE /\ batch[j].c.inv # batch[i].c.inv)
AllOut(obs) == obs.out0 \o obs.out1
\* APDUs of the transaction family sent to the requester with its invoke ID
FamilyTo(outs, e) == SelectSeq(outs, LAMBDA r : r.to = e.src /\ r.v.k \in Family /\ r.v.inv = e.c.inv)
RepliesTo(outs, e) == SelectSeq(outs, LAMBDA r : r.to = e.src /\ r.v.k \in ReplyKinds /\ r.v.inv = e.c.inv)
\* a segmented ComplexACK that nobody acknowledges: the first segment, retransmitted -- one logical reply
SegAttempt(rs) == /\ Len(rs) >= 1
                  /\ \A k \in 1..Len(rs) : rs[k].v.k = "ComplexAck" /\ rs[k].v.seg /\ rs[k].v.seq = 0 /\ rs[k].v.apdu = rs[1].v.apdu
\* a segmented ComplexACK that the requester does acknowledge (with whatever segment acks): segments of one answer,
\* possibly given up with an abort -- still one logical reply
SegTransfer(rs) == /\ Len(rs) >= 1
                   /\ \A k \in 1..(Len(rs) - 1) : rs[k].v.k = "ComplexAck" /\ rs[k].v.seg
                   /\ (rs[Len(rs)].v.k = "ComplexAck" /\ rs[Len(rs)].v.seg) \/ (Len(rs) > 1 /\ rs[Len(rs)].v.k = "Abort")
OneLogical(rs) == Len(rs) = 1 \/ SegAttempt(rs) \/ SegTransfer(rs)
Complete(rs) == Len(rs) = 1 /\ ~rs[1].v.seg

\* something earlier in the same batch may have switched communication off (DeviceCommunicationControl): what follows
\* may legitimately go unanswered
Deaf(obs, i) == \E j \in 1..(i - 1) : MayDisable(obs.batch[j].c)
Subject(obs, i) == Permitted(obs.batch[i].c) /\ obs.batch[i].c.inv # NONE /\ UniqueKey(obs.batch, i)
Demanding(obs, i) == Required(obs.batch[i].c) /\ UniqueKey(obs.batch, i) /\ ~Deaf(obs, i)

\* sets of batch positions that falsify each clause (empty = clause holds)
BadOneReplySameId(obs) ==
    {i \in 1..Len(obs.batch) : Subject(obs, i) /\ LET rs == RepliesTo(AllOut(obs), obs.batch[i]) IN Len(rs) > 0 /\ ~OneLogical(rs)}
BadReplyKindAllowed(obs) ==
    {i \in 1..Len(obs.batch) : Demanding(obs, i) /\ \E r \in Range(FamilyTo(AllOut(obs), obs.batch[i])) : r.v.k \notin ReplyKinds}
BadNeverSilent(obs) ==
    {i \in 1..Len(obs.batch) : Demanding(obs, i) /\ RepliesTo(AllOut(obs), obs.batch[i]) = <<>>}

\* a segmented request the device received completely and in order (role "last" marks its final segment; the trace
\* module checks the claim on the octets) is a request like any other: it is answered
BadSegmentedNeverSilent(obs) ==
    {i \in 1..Len(obs.batch) : obs.batch[i].role = "last" /\ ~Deaf(obs, i) /\ RepliesTo(AllOut(obs), obs.batch[i]) = <<>>}

Clean(res) == res.srv = {} /\ res.ntx = 0 /\ res.cli = 0 /\ res.timers = 0 /\ res.deferred = 0
\* immediately for requests the device answered ...
BadLeftoverImmediate(obs) ==
    {i \in 1..Len(obs.batch) : Demanding(obs, i) /\ Complete(RepliesTo(obs.out0, obs.batch[i])) /\ TKey(obs.batch[i]) \in obs.res0.srv}
\* ... and for everything once the timeouts have elapsed (and again after the follow-up)
LeftoverFinal(obs) == ~Clean(obs.res1) \/ obs.res2.srv # {} \/ obs.res2.ntx # 0 \/ obs.res2.timers # 0 \/ obs.res2.deferred # 0
\* the batch positions a transaction that is still there belongs to: the last datagram with that requester and invoke
\* ID (by invoke ID alone for routed / forwarded requests; 0 when it cannot be told)
LeftBehindBy(obs) ==
    LET keys  == obs.res1.srv \cup obs.res2.srv
        cand  == {i \in 1..Len(obs.batch) : Permitted(obs.batch[i].c)}
        exact == {i \in cand : TKey(obs.batch[i]) \in keys}
        byid  == {i \in cand : obs.batch[i].c.inv \in {k[2] : k \in keys}}
        who   == IF exact # {} THEN exact ELSE byid
    IN IF ~LeftoverFinal(obs) THEN {}
       ELSE IF who = {} THEN {0}
       ELSE {i \in who : \A j \in who : TKey(obs.batch[j]) = TKey(obs.batch[i]) => j <= i}

\* a companion is exempt when something before it in the batch may have switched communication off, or shares its key
Exempt(obs, i) == Deaf(obs, i) \/ ~UniqueKey(obs.batch, i)
BadOthersStillProcessed(obs) ==
    {i \in 1..Len(obs.batch) :
        /\ obs.batch[i].role = "rp" /\ ~Exempt(obs, i)
        /\ LET rs == RepliesTo(obs.out0, obs.batch[i]) IN ~(Len(rs) = 1 /\ rs[1].v.apdu = obs.batch[i].want)}
    \cup
    (LET asked == {i \in 1..Len(obs.batch) : obs.batch[i].role = "whois" /\ ~Exempt(obs, i)}
         told(s) == Len(SelectSeq(obs.out0, LAMBDA r : r.to = s /\ r.v.k = "UnconfirmedRequest" /\ r.v.svc = IAmService))
     IN {i \in asked : told(obs.batch[i].src) < Cardinality({j \in asked : obs.batch[j].src = obs.batch[i].src})})

UnhealthyAfter(obs) ==
    \/ \E k \in 1..Len(obs.fu) :
          LET rs == RepliesTo(obs.fuout, obs.fu[k]) IN ~(Len(rs) = 1 /\ rs[1].v.apdu = obs.fu[k].want)
    \/ (obs.reenabled /\ ~\E j \in 1..Len(obs.batch) : MayDisable(obs.batch[j].c))

\* the verdict: names of the failing monitors with the batch positions concerned (0 = the record as a whole)
Tag(name, s) == {<<name, i>> : i \in s}
Failing(obs) ==
         Tag("OneReplySameId", BadOneReplySameId(obs))
    \cup Tag("ReplyKindAllowed", BadReplyKindAllowed(obs))
    \cup Tag("NeverSilentOnIntactHeader", BadNeverSilent(obs))
    \cup Tag("NeverSilentOnIntactHeader", BadSegmentedNeverSilent(obs))
    \cup Tag("NoLeftover", BadLeftoverImmediate(obs))
    \cup Tag("NoLeftover", LeftBehindBy(obs))
    \cup Tag("OthersStillProcessed", BadOthersStillProcessed(obs))
    \cup (IF UnhealthyAfter(obs) THEN {<<"StillHealthy", 0>>} ELSE {})

\* output nobody asked for (reply kinds with an invoke ID no tolerated request carried): informational
Unsolicited(obs) ==
    {k \in 1..Len(AllOut(obs)) :
        LET r == AllOut(obs)[k] IN
        r.v.k \in Family /\ ~\E i \in 1..Len(obs.batch) :
            Permitted(obs.batch[i].c) /\ (obs.batch[i].c.inv \in {r.v.inv, NONE}) /\ (obs.batch[i].src = r.to \/ obs.batch[i].c.link = "fwd")}

\* how long the harness has to let time pass before `res1` is taken: every protocol timeout of the device (ms)
Quiet(cfg) == Max2(Max2(cfg.tapp, 4 * cfg.tseg), Max2((cfg.retries + 1) * cfg.tapdu, (cfg.retries + 1) * cfg.tseg))

(***************************************************************************)
(* Part 3 -- design model: the receive path as a reactive machine over     *)
(* abstract classes.  One deferred call per datagram (what                 *)
(* udp.UDPDirector.handle_read does), drained in order; then time passes;  *)
(* then a valid request follows.  Named deviations (today's bacpypes):     *)
(*   Dev_F6  a reserved max-APDU-length code raises in ServerSSM.idle      *)
(*           after the transaction was registered, before any state change *)
(*   Dev_F7  a decoder / handler exception outside the Reject / Abort /    *)
(*           Error families escapes ApplicationServiceAccessPoint          *)
(*   Dev_F9  an unknown BVLL function raises in AnnexJCodec.confirmation   *)
(*   Dev_F8  an exception escaping a deferred call discards the rest of    *)
(*           the batch (repaired in core.run_once; kept to show what F9    *)
(*           costs with and without that repair)                           *)
(***************************************************************************)
CONSTANTS Dev_F6, Dev_F7, Dev_F8, Dev_F9,
          Inputs,            \* abstract garbage / request classes the batch is drawn from
          Companions,        \* valid requests that may share the batch
          Shapes             \* batch shapes: sequences over {"g", "v"}
Tapp == 3
Tseg4 == 8

VARIABLES batch, pc, phase, txs, out0, out1, fuout, now, dcc, res0, res1, res2, reenabled, escaped
vars == <<batch, pc, phase, txs, out0, out1, fuout, now, dcc, res0, res1, res2, reenabled, escaped>>

\* model inputs: [c : class, src, role, want, body, dis]
\*   body : "ok" | "err" | "rej" | "unk" | "raises"   what decoding / executing the parameters leads to
\*   dis  : TRUE when executing it switches communication off (DeviceCommunicationControl disable)
Snapshot(t, ndef) == [srv |-> {x.key : x \in t}, ntx |-> Cardinality(t), cli |-> 0,
                      timers |-> Cardinality({x \in t : x.dl # NONE}), deferred |-> ndef]
NoSnap == [srv |-> {}, ntx |-> 0, cli |-> 0, timers |-> 0, deferred |-> 0]

RECURSIVE Build(_, _, _)
\* all batches of a shape: "g" positions take the garbage input g, "v" positions the companions in order
Build(shape, g, vs) ==
    IF shape = <<>> THEN <<>>
    ELSE IF Head(shape) = "g" THEN <<g>> \o Build(Tail(shape), g, vs)
    ELSE <<Head(vs)>> \o Build(Tail(shape), g, Tail(vs))
NV(shape) == Cardinality({i \in 1..Len(shape) : shape[i] = "v"})

Init ==
    /\ \E shape \in Shapes, g \in Inputs :
          \E vs \in [1..NV(shape) -> Companions] : batch = Build(shape, g, vs)
    /\ pc = 1 /\ phase = "drain" /\ txs = {} /\ out0 = <<>> /\ out1 = <<>> /\ fuout = <<>> /\ now = 0
    /\ dcc = "enable" /\ res0 = NoSnap /\ res1 = NoSnap /\ res2 = NoSnap /\ reenabled = FALSE /\ escaped = 0

Reply(e, kind, payload) == [to |-> e.src, v |-> [k |-> kind, inv |-> e.c.inv, svc |-> e.c.svc, seg |-> FALSE, seq |-> NONE, apdu |-> payload]]
IAm(e) == [to |-> e.src, v |-> [k |-> "UnconfirmedRequest", inv |-> NONE, svc |-> IAmService, seg |-> FALSE, seq |-> NONE, apdu |-> <<"iam">>]]

\* what one datagram does: [raise : BOOLEAN, txs, out : Seq(reply), dcc]
Stay(t, d) == [raise |-> FALSE, txs |-> t, out |-> <<>>, dcc |-> d]
Raise(t, d) == [raise |-> TRUE, txs |-> t, out |-> <<>>, dcc |-> d]
Process(e, t, d, at) ==
    LET c == e.c IN
    IF c.link = "bad" THEN Raise(t, d)                                  \* DecodingError out of the codec
    ELSE IF c.link = "unknown" THEN (IF Dev_F9 THEN Raise(t, d) ELSE Stay(t, d))
    ELSE IF c.link = "other" THEN Stay(t, d)                            \* a BVLL service message: not for the application
    ELSE IF c.net \in {"bad", "unspec"} THEN Raise(t, d)
    ELSE IF c.net \in {"netmsg", "remote"} THEN Stay(t, d)
    ELSE IF c.app = "bad" THEN Raise(t, d)
    ELSE IF c.app = "resp" THEN Stay(t, d)                              \* no such client transaction
    ELSE IF d # "enable" /\ ~(c.app = "creq" /\ c.svc = 17) /\ ~(c.app = "ureq" /\ c.svc = WhoIsService) THEN Stay(t, d)
    ELSE IF c.app = "ureq" THEN
         (IF c.svc = WhoIsService /\ e.body = "ok" THEN [raise |-> FALSE, txs |-> t, out |-> <<IAm(e)>>, dcc |-> d]
          ELSE IF e.body = "raises" /\ Dev_F7 THEN Raise(t, d) ELSE Stay(t, d))
    ELSE \* a confirmed request: look the transaction up, or register a new one
    LET key == <<e.src, c.inv>>
        old == {x \in t : x.key = key}
        t1  == IF old = {} THEN t \cup {[key |-> key, st |-> "idle", dl |-> NONE]} ELSE t
        cur == CHOOSE x \in t1 : x.key = key
    IN
    IF cur.st # "idle" THEN Stay(t, d)                                  \* the client repeats itself: ignored
    ELSE IF c.maxresp \notin 0..5 /\ Dev_F6 THEN Raise(t1, d)           \* registered, never leaves IDLE, no timer
    ELSE IF c.app = "cseg" THEN
         [raise |-> FALSE, txs |-> (t1 \ {cur}) \cup {[key |-> key, st |-> "segreq", dl |-> at + Tseg4]},
          out |-> <<Reply(e, "SegmentAck", <<>>)>>, dcc |-> d]
    ELSE \* unsegmented: AWAIT_RESPONSE with the application timer, then the application answers at once
    LET waiting == (t1 \ {cur}) \cup {[key |-> key, st |-> "await", dl |-> at + Tapp]}
        done(kind) == [raise |-> FALSE, txs |-> t1 \ {cur}, out |-> <<Reply(e, kind, e.want)>>,
                       dcc |-> IF kind = "SimpleAck" /\ c.svc = 17 THEN (IF e.dis THEN "disable" ELSE "enable") ELSE d]
    IN CASE e.body = "ok"  -> done(IF c.svc = 17 THEN "SimpleAck" ELSE "ComplexAck")
         [] e.body = "err" -> done("Error")
         [] e.body \in {"rej", "unk"} -> done("Reject")
         [] e.body = "raises" -> IF Dev_F7 THEN Raise(waiting, d) ELSE done("Reject")

RunDeferred ==
    /\ phase = "drain" /\ pc <= Len(batch)
    /\ LET r == Process(batch[pc], txs, dcc, now) IN
        /\ txs' = r.txs /\ dcc' = r.dcc /\ out0' = out0 \o r.out
        /\ escaped' = escaped + (IF r.raise THEN 1 ELSE 0)
        /\ pc' = IF r.raise /\ Dev_F8 THEN Len(batch) + 1 ELSE pc + 1
    /\ UNCHANGED <<batch, phase, out1, fuout, now, res0, res1, res2, reenabled>>

Drained ==
    /\ phase = "drain" /\ pc > Len(batch)
    /\ res0' = Snapshot(txs, 0) /\ phase' = "elapse"
    /\ UNCHANGED <<batch, pc, txs, out0, out1, fuout, now, dcc, res1, res2, reenabled, escaped>>

\* every timer fires: a transaction waiting for the application is aborted toward the APPLICATION (nothing is sent),
\* an incomplete segmented request is given up
Elapse ==
    /\ phase = "elapse"
    /\ now' = now + Max2(Tapp, Tseg4) + 1
    /\ txs' = {x \in txs : x.dl = NONE}
    /\ res1' = Snapshot(txs', 0) /\ phase' = "fu"
    /\ UNCHANGED <<batch, pc, out0, out1, fuout, dcc, res0, res2, reenabled, escaped>>

FuReq == [c |-> [link |-> "ucast", net |-> "local", app |-> "creq", inv |-> 200, svc |-> 12, maxresp |-> 5, sa |-> FALSE, routed |-> FALSE],
          src |-> 1, role |-> "rp", want |-> <<"value", 200>>, body |-> "ok", dis |-> FALSE]
FuDcc == [c |-> [link |-> "ucast", net |-> "local", app |-> "creq", inv |-> 199, svc |-> 17, maxresp |-> 5, sa |-> FALSE, routed |-> FALSE],
          src |-> 1, role |-> "g", want |-> <<"simple", 199>>, body |-> "ok", dis |-> FALSE]
FollowUp ==
    /\ phase = "fu"
    /\ reenabled' = (dcc # "enable")
    /\ LET r1 == IF reenabled' THEN Process(FuDcc, txs, dcc, now) ELSE Stay(txs, dcc)
           r2 == Process(FuReq, r1.txs, r1.dcc, now)
       IN /\ txs' = r2.txs /\ dcc' = r2.dcc /\ fuout' = r1.out \o r2.out
          /\ res2' = Snapshot(r2.txs, 0)
    /\ phase' = "done"
    /\ UNCHANGED <<batch, pc, out0, out1, now, res0, res1, escaped>>

Done == phase = "done" /\ UNCHANGED vars

Next == RunDeferred \/ Drained \/ Elapse \/ FollowUp \/ Done
Spec == Init /\ [][Next]_vars

\* the observation of a finished run, in the vocabulary of part 2
ModelObs == [batch |-> batch, out0 |-> out0, out1 |-> out1, res0 |-> res0, res1 |-> res1, res2 |-> res2,
             fu |-> IF reenabled THEN <<FuDcc, FuReq>> ELSE <<FuReq>>, fuout |-> fuout, reenabled |-> reenabled]
Finished == phase = "done"

\* ---- what TLC checks on the model (one invariant per monitor so that a deviation names what it breaks) ---------
Holds(name) == Finished => ~\E x \in Failing(ModelObs) : x[1] = name
M_OneReplySameId            == Holds("OneReplySameId")
M_ReplyKindAllowed          == Holds("ReplyKindAllowed")
M_NeverSilentOnIntactHeader == Holds("NeverSilentOnIntactHeader")
M_NoLeftover                == Holds("NoLeftover")
M_OthersStillProcessed      == Holds("OthersStillProcessed")
M_StillHealthy              == Holds("StillHealthy")
\* the model sends transaction APDUs only where Expected tolerates them
M_NothingUnsolicited == Finished => Unsolicited(ModelObs) = {}
=============================================================================
