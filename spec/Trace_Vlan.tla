----------------------------- MODULE Trace_Vlan -----------------------------
(***************************************************************************)
(* Trace validation for Vlan.tla.  Each line of TRACE_FILE is one execution *)
(* recorded from real vlan.Network / Node / IPNetwork / IPNode / IPRouter   *)
(* objects with a recording client bound on top of every node:              *)
(*   {"tid":n, "topo":{"node":[{"addr":[..],"plen":0,"ip":false,            *)
(*                              "prom":..,"spoof":..,"raises":..},..],      *)
(*                     "net":[{"ip":..,"bcast":[..],"drop":0},..],          *)
(*                     "router":[..], "member":[[..],..]},                  *)
(*    "evs":[{"op":"send","n":1,"net":1,"dst":[2],"src":[],"pl":7,          *)
(*            "res":"ok","draw":-1,"id":1,                                  *)
(*            "member":[[..]],"bcast":[[..]],"flight":[{frame},..],         *)
(*            "rin":[..],"got":[[records new on node 1],..],                *)
(*            "wired":[[ids new in the traffic log of net 1],..]}, ..]}     *)
(* member / bcast / flight / rin are the projection of the objects after    *)
(* the step, got / wired what was appended during the step.  For every step *)
(* TLC decides (a) conformance: is the logged post-state the successor of   *)
(* the logged pre-state under the Vlan action named by the event (with the  *)
(* deviation flags observed on the tree under test), and (b) the X06 step   *)
(* formulas on the logged states; at the end of the trace the state         *)
(* formulas for a quiet network.  One verdict record per trace ("@@"        *)
(* prefix); nothing halts the run.                                          *)
(***************************************************************************)
EXTENDS Vlan, Json, IOUtils, TLCExt

Traces == ndJsonDeserialize(IOEnv.TRACE_FILE)
tr_TopoAt(i) == Traces[i].topo                              \* cfg: TopoAt <- tr_TopoAt, NTopos = 0 (unused)
VARIABLES tid, l, rej, rejs, viol
tvars == <<tid, l, rej, rejs, viol>>
T == Traces[tid].evs

TInit ==
    /\ tid \in 1..Len(Traces) /\ l = 1 /\ rej = 0 /\ rejs = {} /\ viol = {}
    /\ InitWith(tid)

Act(e) ==
    CASE e.op = "send"    -> Send(e.n, e.dst, e.src, e.pl)
      [] e.op = "deliver" -> Deliver(e.draw)
      [] e.op = "forward" -> Forward
      [] e.op = "add"     -> AddNode(e.n, e.net)
      [] e.op = "remove"  -> RemoveNode(e.n)
      [] e.op = "mutate"  -> Mutate(e.id, e.pl)
      [] OTHER            -> FALSE

\* the projection logged by the harness after the step; sent / lost / cnt are bookkeeping over the logged inputs
Bind(e) ==
    /\ member' = e.member /\ bcast' = e.bcast /\ flight' = e.flight /\ rin' = e.rin
    /\ rcv' = [n \in Nodes |-> rcv[n] \o e.got[n]]
    /\ wire' = [k \in Nets |-> wire[k] \o e.wired[k]]
    /\ sent' = IF e.op = "send" /\ e.res = "ok"
               THEN Append(sent, [node |-> e.n, net |-> NetOf(e.n), src |-> IF e.src = NoAddr THEN Addr(e.n) ELSE e.src,
                                  dst |-> e.dst, pl |-> e.pl])
               ELSE sent
    /\ lost' = IF e.op = "deliver" /\ flight # <<>> /\ Head(flight).net \in Nets /\ DropRule(Head(flight).net, e.draw)
               THEN lost \cup {<<Head(flight).id, Head(flight).net>>} ELSE lost
    /\ act' = [op |-> e.op, n |-> e.n, net |-> e.net, dst |-> e.dst, src |-> e.src, pl |-> e.pl, res |-> e.res,
               draw |-> e.draw, id |-> e.id]
    /\ cnt' = [cnt EXCEPT ![e.op] = @ + 1]
    /\ UNCHANGED topo

Failing ==
    (IF UnicastToAddressed THEN {} ELSE {"UnicastToAddressed"}) \cup
    (IF UnicastNotToOthers THEN {} ELSE {"UnicastNotToOthers"}) \cup
    (IF PromiscuousSeesOnce THEN {} ELSE {"PromiscuousSeesOnce"}) \cup
    (IF BroadcastToAllOthers THEN {} ELSE {"BroadcastToAllOthers"}) \cup
    (IF BroadcastNotToSender THEN {} ELSE {"BroadcastNotToSender"}) \cup
    (IF OnlyMembersReceive THEN {} ELSE {"OnlyMembersReceive"}) \cup
    (IF DroppedReachesNobody THEN {} ELSE {"DroppedReachesNobody"}) \cup
    (IF ReceptionOnlyOnDelivery THEN {} ELSE {"ReceptionOnlyOnDelivery"}) \cup
    (IF HistoryOnlyGrows THEN {} ELSE {"HistoryOnlyGrows"}) \cup
    (IF CopyIsFrame THEN {} ELSE {"CopyIsFrame"}) \cup
    (IF OnlySentFramesArrive THEN {} ELSE {"OnlySentFramesArrive"}) \cup
    (IF SourceIsSender THEN {} ELSE {"SourceIsSender"}) \cup
    (IF PayloadIsWhatWasSent THEN {} ELSE {"PayloadIsWhatWasSent"}) \cup
    (IF AtMostOnce THEN {} ELSE {"AtMostOnce"}) \cup
    (IF PerSenderFifo THEN {} ELSE {"PerSenderFifo"}) \cup
    (IF UnboundRefused THEN {} ELSE {"UnboundRefused"}) \cup
    (IF SpoofRefusedUnlessEnabled THEN {} ELSE {"SpoofRefusedUnlessEnabled"}) \cup
    (IF RefusedSendsNothing THEN {} ELSE {"RefusedSendsNothing"}) \cup
    (IF AcceptedSendInFlight THEN {} ELSE {"AcceptedSendInFlight"}) \cup
    (IF OnlySendsAndForwardsEmit THEN {} ELSE {"OnlySendsAndForwardsEmit"}) \cup
    (IF FlightKeepsPayload THEN {} ELSE {"FlightKeepsPayload"}) \cup
    (IF OldestFirst THEN {} ELSE {"OldestFirst"}) \cup
    (IF FlightWellFormed THEN {} ELSE {"FlightWellFormed"}) \cup
    (IF WireLogsEveryFrame THEN {} ELSE {"WireLogsEveryFrame"}) \cup
    (IF NoLoop THEN {} ELSE {"NoLoop"}) \cup
    (IF ForwardToContainingNet THEN {} ELSE {"ForwardToContainingNet"}) \cup
    (IF AddOutcome THEN {} ELSE {"AddOutcome"}) \cup
    (IF RemoveOutcome THEN {} ELSE {"RemoveOutcome"}) \cup
    (IF MembershipOnlyByAddRemove THEN {} ELSE {"MembershipOnlyByAddRemove"})

\* at the end of the trace (the harness has run everything that was scheduled)
FinalFailing ==
    (IF Quiet THEN {} ELSE {"QuietAtEnd"}) \cup
    (IF RoutedExactlyOnce THEN {} ELSE {"RoutedExactlyOnce"}) \cup
    (IF EverySendOnItsOwnWire THEN {} ELSE {"EverySendOnItsOwnWire"})

\* every failing (monitor, step) is reported (the harness groups them into classes)
Step ==
    /\ l <= Len(T)
    /\ LET e == T[l] IN
        /\ Bind(e)
        /\ LET ok == ENABLED (Act(e) /\ Bind(e)) IN
            /\ rej' = IF rej = 0 /\ ~ok THEN l ELSE rej
            /\ rejs' = IF ok THEN rejs ELSE rejs \cup {l}
        /\ viol' = viol \cup {<<m, l>> : m \in Failing}
    /\ l' = l + 1 /\ UNCHANGED tid

Done ==
    /\ l = Len(T) + 1
    /\ PrintT(<<"@@", [tid |-> Traces[tid].tid, rej |-> rej, rejs |-> rejs,
                       viol |-> viol \cup {<<m, l>> : m \in FinalFailing},
                       badroute |-> IF Quiet THEN NotRoutedOnce ELSE {}]>>)
    /\ l' = l + 1 /\ UNCHANGED <<vars, tid, rej, rejs, viol>>

TNext == Step \/ Done
TSpec == TInit /\ [][TNext]_<<vars, tvars>>
=============================================================================
